SPECIFICATION Spec
CONSTANT Triples <- MCTriples
CONSTANT Mults <- MCMults
CONSTANT Origins <- MCOrigins
CONSTANT Rots <- MCRots
CONSTANT Psfs <- MCPsfs
CONSTANT MaxLegs = 2
INVARIANT TraverseSum
INVARIANT JoinInvertsRadiate
INVARIANT RotationAndScale
INVARIANT OppositeReturns
INVARIANT PolarRectInverse
INVARIANT ReducePythagoras
INVARIANT ZeroIsAValue
INVARIANT ValidAtmosphereDefined
CHECK_DEADLOCK FALSE
