#!/bin/sh
# Offline setup: nothing to build (TLA+ modules are interpreted by TLC, the harness is Python
# run by /venv/bin/python against /repo's working tree).  Sanity-check the toolchain and
# parse the core specification modules.
set -e
cd "$(dirname "$0")"
java -version >/dev/null 2>&1 || { echo "java missing"; exit 1; }
test -f /opt/veriftools/tla/tla2tools.jar || { echo "tla2tools.jar missing"; exit 1; }
/venv/bin/python -c "import numpy, geodepy" || { echo "geodepy not importable"; exit 1; }
mkdir -p evidence replays
PYTHONPATH="/repo:$(pwd)" /venv/bin/python -m harness.selfcheck
